package datamover

import (
	"testing"

	"github.com/sarchlab/akita/v5/hooking"
	"github.com/sarchlab/akita/v5/mem"
	"github.com/sarchlab/akita/v5/mem/datamoverprotocol"
	"github.com/sarchlab/akita/v5/mem/memcontrolprotocol"
	"github.com/sarchlab/akita/v5/mem/memprotocol"
	"github.com/sarchlab/akita/v5/messaging"
	"github.com/sarchlab/akita/v5/modeling"
	"github.com/sarchlab/akita/v5/timing"
)

type orphanProbeConn struct {
	hooking.HookableBase
}

func (c *orphanProbeConn) Name() string                     { return "orphanProbeConn" }
func (c *orphanProbeConn) PlugIn(port messaging.Port)       { port.SetConnection(c) }
func (c *orphanProbeConn) Unplug(_ messaging.Port)          {}
func (c *orphanProbeConn) NotifyAvailable(_ messaging.Port) {}
func (c *orphanProbeConn) NotifySend()                      {}

// The data mover is ticked by hand and its memory traffic answered by hand,
// exactly like the package's own control_behavior_test.go ("drops a stale
// memory ack that arrives after Reset"). The only difference from that test is
// the direction of the move that follows the Reset.
//
// History:
//  1. move A (outside -> inside) issues its read on the Outside port;
//  2. a Reset wipes move A while that read is in flight (Reset is acked OK);
//  3. the memory's DataReadyRsp for that read arrives on the Outside port;
//  4. move B (inside -> outside) is requested. Its read on Inside is answered,
//     its write on Outside is answered with a WriteDoneRsp.
//
// The property demands exactly one acknowledgment for move B.
func TestOrphanProbeStaleReadRspBlocksNextMoveForever(t *testing.T) {
	engine := timing.NewSerialEngine()

	spec := DefaultSpec()
	spec.BufferSize = 2048
	spec.InsideByteGranularity = 64
	spec.OutsideByteGranularity = 64

	reg := modeling.NewStandaloneRegistrar(engine)
	dm := MakeBuilder().
		WithRegistrar(reg).
		WithSpec(spec).
		WithResources(Resources{
			InsideMapper:  &mem.SinglePortMapper{Port: "InsideMem"},
			OutsideMapper: &mem.SinglePortMapper{Port: "OutsideMem"},
		}).
		Build("DataMover")

	ports := map[string]messaging.Port{}
	for _, name := range []string{"Top", "Inside", "Outside", "Control"} {
		p := modeling.MakePortBuilder().
			WithRegistrar(reg).
			WithComponent(dm).
			WithSpec(modeling.PortSpec{BufSize: 16}).
			Build(name)
		dm.AssignPort(name, p)
		(&orphanProbeConn{}).PlugIn(p)
		ports[name] = p
	}
	top, inside, outside, ctrl :=
		ports["Top"], ports["Inside"], ports["Outside"], ports["Control"]

	makeMove := func(srcSide, dstSide string) datamoverprotocol.DataMoveRequest {
		req := datamoverprotocol.DataMoveRequest{}
		req.ID = timing.GetIDGenerator().Generate()
		req.Src = "Agent"
		req.Dst = top.AsRemote()
		req.SrcSide = datamoverprotocol.DataMovePort(srcSide)
		req.DstSide = datamoverprotocol.DataMovePort(dstSide)
		req.ByteSize = 64
		req.TrafficClass = "datamoverprotocol.DataMoveRequest"
		return req
	}

	answerRead := func(port messaging.Port, read memprotocol.ReadReq) {
		rsp := memprotocol.DataReadyRsp{
			Data: make([]byte, int(read.AccessByteSize))}
		rsp.ID = timing.GetIDGenerator().Generate()
		rsp.Src = read.Dst
		rsp.Dst = port.AsRemote()
		rsp.RspTo = read.ID
		rsp.TrafficClass = "memprotocol.DataReadyRsp"
		port.Deliver(rsp)
	}

	answerWrite := func(port messaging.Port, write memprotocol.WriteReq) {
		rsp := memprotocol.WriteDoneRsp{}
		rsp.ID = timing.GetIDGenerator().Generate()
		rsp.Src = write.Dst
		rsp.Dst = port.AsRemote()
		rsp.RspTo = write.ID
		rsp.TrafficClass = "memprotocol.WriteDoneRsp"
		port.Deliver(rsp)
	}

	// 1. move A: outside -> inside; wait for its read on Outside.
	moveA := makeMove("outside", "inside")
	top.Deliver(moveA)
	var readA memprotocol.ReadReq
	gotReadA := false
	for i := 0; i < 64 && !gotReadA; i++ {
		dm.Tick()
		if out := outside.RetrieveOutgoing(); out != nil {
			readA, gotReadA = out.(memprotocol.ReadReq)
		}
	}
	if !gotReadA {
		t.Fatal("setup: move A never issued its read")
	}

	// 2. Reset while readA is in flight.
	reset := memcontrolprotocol.Req{Command: memcontrolprotocol.CmdReset}
	reset.ID = timing.GetIDGenerator().Generate()
	reset.Src = "Cmd"
	reset.Dst = ctrl.AsRemote()
	reset.TrafficClass = "memcontrolprotocol.Req"
	ctrl.Deliver(reset)
	resetAcked := false
	for i := 0; i < 64 && !resetAcked; i++ {
		dm.Tick()
		if out := ctrl.RetrieveOutgoing(); out != nil {
			if r, ok := out.(memcontrolprotocol.Rsp); ok &&
				r.Command == memcontrolprotocol.CmdReset && r.Success {
				resetAcked = true
			}
		}
	}
	if !resetAcked {
		t.Fatal("setup: Reset was not acknowledged")
	}
	if dm.State.ControlState != memcontrolprotocol.StateEnabled {
		t.Fatal("setup: data mover not enabled after Reset")
	}

	// 3. The memory answers the read it had already accepted.
	answerRead(outside, readA)
	for range 8 {
		dm.Tick()
	}

	// 4. move B: inside -> outside.
	moveB := makeMove("inside", "outside")
	top.Deliver(moveB)

	acksB := 0
	readAnswered, writeAnswered := false, false
	for i := 0; i < 2000; i++ {
		dm.Tick()

		if out := inside.RetrieveOutgoing(); out != nil {
			if rd, ok := out.(memprotocol.ReadReq); ok {
				answerRead(inside, rd)
				readAnswered = true
			}
		}
		if out := outside.RetrieveOutgoing(); out != nil {
			if wr, ok := out.(memprotocol.WriteReq); ok {
				answerWrite(outside, wr)
				writeAnswered = true
			}
		}
		if out := top.RetrieveOutgoing(); out != nil {
			if rsp, ok := out.(datamoverprotocol.DataMoveResponse); ok &&
				rsp.RspTo == moveB.ID {
				acksB++
			}
		}
	}

	if !readAnswered || !writeAnswered {
		t.Fatalf("setup: move B read answered=%v write answered=%v",
			readAnswered, writeAnswered)
	}

	if acksB != 1 {
		head := outside.PeekIncoming()
		t.Fatalf("move B got %d acknowledgments after 2000 ticks (want "+
			"exactly 1) although its read and its write were both answered; "+
			"transaction active=%v pendingWrites=%d; head of Outside "+
			"incoming buffer is still %T (RspTo=%d, move A's read was %d)",
			acksB,
			dm.State.CurrentTransaction.Active,
			len(dm.State.CurrentTransaction.PendingWrite),
			head, head.Meta().RspTo, readA.ID)
	}
}
