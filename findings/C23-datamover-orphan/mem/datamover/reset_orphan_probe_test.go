package datamover

import (
	"testing"

	"github.com/sarchlab/akita/v5/mem"
	"github.com/sarchlab/akita/v5/mem/datamoverprotocol"
	"github.com/sarchlab/akita/v5/mem/memcontrolprotocol"
	"github.com/sarchlab/akita/v5/mem/memprotocol"
	"github.com/sarchlab/akita/v5/messaging"
	"github.com/sarchlab/akita/v5/modeling"
	"github.com/sarchlab/akita/v5/timing"
)

// TestProbeOrphanWriteAckAfterResetWedgesNextMove drives the real data mover:
//
//  1. move A (outside -> inside) is started; its Outside read is answered and
//     its Inside write is issued, but the Inside memory has not acked yet;
//  2. Reset is delivered and acknowledged (the write to Inside memory is a
//     pre-reset downstream request that is still in flight);
//  3. the Inside memory's WriteDoneRsp for A's write arrives (a legal
//     downstream response, it cannot be recalled);
//  4. move B (inside -> outside) is requested; the Inside memory answers B's
//     read with a DataReadyRsp that queues behind the orphaned WriteDoneRsp;
//  5. a Drain is delivered.
//
// C18: every control request receives exactly one response, and a Reset ack
// leaves the agent in its freshly-built, enabled shape. The probe asserts that
// move B completes and the Drain is acknowledged.
func TestProbeOrphanWriteAckAfterResetWedgesNextMove(t *testing.T) {
	engine := timing.NewSerialEngine()

	spec := DefaultSpec()
	spec.BufferSize = 2048
	spec.InsideByteGranularity = 64
	spec.OutsideByteGranularity = 64

	reg := modeling.NewStandaloneRegistrar(engine)
	dm := MakeBuilder().
		WithRegistrar(reg).
		WithSpec(spec).
		WithResources(Resources{
			InsideMapper:  &mem.SinglePortMapper{Port: messaging.RemotePort("InsideMem")},
			OutsideMapper: &mem.SinglePortMapper{Port: messaging.RemotePort("OutsideMem")},
		}).
		Build("DataMover")

	assign := func(name string, bufSize int) messaging.Port {
		p := modeling.MakePortBuilder().
			WithRegistrar(reg).
			WithComponent(dm).
			WithSpec(modeling.PortSpec{BufSize: bufSize}).
			Build(name)
		dm.AssignPort(name, p)
		(&ccNoopConn{}).PlugIn(p)
		return p
	}
	top := assign("Top", 16)
	inside := assign("Inside", 64)
	outside := assign("Outside", 64)
	ctrl := assign("Control", 16)

	makeMove := func(src, dst string) datamoverprotocol.DataMoveRequest {
		req := datamoverprotocol.DataMoveRequest{}
		req.ID = timing.GetIDGenerator().Generate()
		req.Src = messaging.RemotePort("Agent")
		req.Dst = top.AsRemote()
		req.SrcAddress = 0
		req.SrcSide = datamoverprotocol.DataMovePort(src)
		req.DstAddress = 0
		req.DstSide = datamoverprotocol.DataMovePort(dst)
		req.ByteSize = 64
		return req
	}
	makeCtrl := func(cmd memcontrolprotocol.Command) memcontrolprotocol.Req {
		req := memcontrolprotocol.Req{Command: cmd}
		req.ID = timing.GetIDGenerator().Generate()
		req.Src = messaging.RemotePort("Cmd")
		req.Dst = ctrl.AsRemote()
		return req
	}
	answerRead := func(port messaging.Port, read memprotocol.ReadReq) {
		rsp := memprotocol.DataReadyRsp{Data: make([]byte, int(read.AccessByteSize))}
		rsp.ID = timing.GetIDGenerator().Generate()
		rsp.Src = read.Dst
		rsp.Dst = port.AsRemote()
		rsp.RspTo = read.ID
		port.Deliver(rsp)
	}
	answerWrite := func(port messaging.Port, write memprotocol.WriteReq) {
		rsp := memprotocol.WriteDoneRsp{}
		rsp.ID = timing.GetIDGenerator().Generate()
		rsp.Src = write.Dst
		rsp.Dst = port.AsRemote()
		rsp.RspTo = write.ID
		port.Deliver(rsp)
	}

	// --- 1. move A: outside -> inside; answer the read, leave the write
	// in flight in the Inside memory.
	top.Deliver(makeMove("outside", "inside"))
	var writeA memprotocol.WriteReq
	gotWriteA := false
	for i := 0; i < 64 && !gotWriteA; i++ {
		dm.Tick()
		if out := outside.RetrieveOutgoing(); out != nil {
			answerRead(outside, out.(memprotocol.ReadReq))
		}
		if out := inside.RetrieveOutgoing(); out != nil {
			writeA = out.(memprotocol.WriteReq)
			gotWriteA = true
		}
	}
	if !gotWriteA {
		t.Fatalf("setup: move A never issued its Inside write")
	}

	// --- 2. Reset, acknowledged.
	reset := makeCtrl(memcontrolprotocol.CmdReset)
	ctrl.Deliver(reset)
	resetAcked := false
	for i := 0; i < 8 && !resetAcked; i++ {
		dm.Tick()
		if out := ctrl.RetrieveOutgoing(); out != nil {
			rsp := out.(memcontrolprotocol.Rsp)
			if rsp.Command != memcontrolprotocol.CmdReset || rsp.RspTo != reset.ID || !rsp.Success {
				t.Fatalf("unexpected control response %+v", rsp)
			}
			resetAcked = true
		}
	}
	if !resetAcked {
		t.Fatalf("setup: Reset not acknowledged")
	}
	if dm.State.ControlState != memcontrolprotocol.StateEnabled {
		t.Fatalf("setup: not enabled after Reset")
	}

	// --- 3. the Inside memory's ack for the pre-reset write arrives now.
	answerWrite(inside, writeA)

	// --- 4. move B: inside -> outside. Serve its memory traffic faithfully.
	moveB := makeMove("inside", "outside")
	top.Deliver(moveB)

	// Let B be admitted (the data mover is Enabled, so it must take it).
	for i := 0; i < 8 && !dm.State.CurrentTransaction.Active; i++ {
		dm.Tick()
	}
	if !dm.State.CurrentTransaction.Active ||
		dm.State.CurrentTransaction.ReqID != moveB.ID {
		t.Fatalf("setup: move B was not admitted after Reset")
	}

	// --- 5. Drain while B is in flight: it must be acked once B is done.
	drain := makeCtrl(memcontrolprotocol.CmdDrain)
	ctrl.Deliver(drain)

	moveBDone := false
	drainAcked := false
	for i := 0; i < 2000 && !drainAcked; i++ {
		dm.Tick()

		if out := inside.RetrieveOutgoing(); out != nil {
			switch m := out.(type) {
			case memprotocol.ReadReq:
				answerRead(inside, m)
			case memprotocol.WriteReq:
				answerWrite(inside, m)
			}
		}
		if out := outside.RetrieveOutgoing(); out != nil {
			switch m := out.(type) {
			case memprotocol.ReadReq:
				answerRead(outside, m)
			case memprotocol.WriteReq:
				answerWrite(outside, m)
			}
		}
		if out := top.RetrieveOutgoing(); out != nil {
			if rsp, ok := out.(datamoverprotocol.DataMoveResponse); ok && rsp.RspTo == moveB.ID {
				moveBDone = true
			}
		}
		if out := ctrl.RetrieveOutgoing(); out != nil {
			rsp := out.(memcontrolprotocol.Rsp)
			if rsp.Command == memcontrolprotocol.CmdDrain && rsp.RspTo == drain.ID {
				drainAcked = true
			}
		}
	}

	if !moveBDone || !drainAcked {
		head := inside.PeekIncoming()
		t.Errorf("after Reset the data mover is wedged: post-reset move "+
			"completed=%v, Drain acknowledged=%v after 2000 ticks; control "+
			"state=%v, transaction active=%v, pending reads=%d, head of "+
			"Inside port=%T",
			moveBDone, drainAcked, dm.State.ControlState,
			dm.State.CurrentTransaction.Active,
			len(dm.State.CurrentTransaction.PendingRead), head)
	}
}
