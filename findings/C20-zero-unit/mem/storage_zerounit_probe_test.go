package mem_test

import (
	"bytes"
	"testing"

	"github.com/sarchlab/akita/v5/mem"
)

// C20: "a read returns exactly the bytes last written at each address,
// regardless of allocation unit size". A storage built with unit size 0 is
// accepted by the builder without complaint, yet every in-range access panics
// with an integer divide by zero in parseAddress.
func TestProbeStorageZeroUnitSize(t *testing.T) {
	var s *mem.Storage
	func() {
		// Rejecting the configuration up front (panic or nil) would be an
		// acceptable repair; silently accepting it is what is probed here.
		defer func() { _ = recover() }()
		s = mem.MakeStorageBuilder().WithCapacity(16).WithUnitSize(0).Build("")
	}()
	if s == nil {
		t.Skip("builder rejected unit size 0 (acceptable)")
	}

	defer func() {
		if r := recover(); r != nil {
			t.Fatalf("in-range access on a 16-byte storage with unit size 0 "+
				"panicked instead of behaving like a 16-byte array: %v", r)
		}
	}()

	if err := s.Write(3, []byte{1, 2, 3}); err != nil {
		t.Fatalf("in-range Write failed: %v", err)
	}

	got, err := s.Read(3, 3)
	if err != nil || !bytes.Equal(got, []byte{1, 2, 3}) {
		t.Fatalf("Read(3,3) = %v, %v; want [1 2 3]", got, err)
	}
}
