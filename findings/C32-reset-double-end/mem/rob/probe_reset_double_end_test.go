package rob

import (
	"testing"

	"github.com/sarchlab/akita/v5/mem/memcontrolprotocol"
	"github.com/sarchlab/akita/v5/mem/memprotocol"
	"github.com/sarchlab/akita/v5/messaging"
	"github.com/sarchlab/akita/v5/modeling"
	"github.com/sarchlab/akita/v5/timing"
	"github.com/sarchlab/akita/v5/tracing"
)

type probeRec struct {
	started map[uint64]tracing.TaskStart
	ended   map[uint64]int
	order   []uint64
}

func (r *probeRec) StartTask(s tracing.TaskStart) {
	r.started[s.ID] = s
	r.order = append(r.order, s.ID)
}
func (r *probeRec) AddTaskTag(tracing.TaskTag)     {}
func (r *probeRec) AddMilestone(tracing.Milestone) {}
func (r *probeRec) EndTask(e tracing.TaskEnd)      { r.ended[e.ID]++ }

// Two reads in flight; the bottom unit answers the SECOND one first (it waits
// behind the head of line with its req_out already finalized); then Reset.
func TestProbeResetAfterOutOfOrderResponse(t *testing.T) {
	engine := timing.NewSerialEngine()
	reg := modeling.NewStandaloneRegistrar(engine)
	spec := DefaultSpec()
	spec.BufferSize = 4
	spec.NumReqPerCycle = 2
	spec.BottomUnit = messaging.RemotePort("BottomUnit")
	rob := MakeBuilder().WithRegistrar(reg).WithSpec(spec).Build("Rob")
	assign := func(name string) messaging.Port {
		p := modeling.MakePortBuilder().WithRegistrar(reg).WithComponent(rob).
			WithSpec(modeling.PortSpec{BufSize: 4}).Build(name)
		rob.AssignPort(name, p)
		(&noopConn{}).PlugIn(p)
		return p
	}
	topPort := assign("Top")
	bottomPort := assign("Bottom")
	ctrlPort := assign("Control")
	rec := &probeRec{started: map[uint64]tracing.TaskStart{}, ended: map[uint64]int{}}
	tracing.CollectTrace(rob, rec)

	for i := 0; i < 2; i++ {
		read := memprotocol.ReadReq{Address: uint64(i) * 64, AccessByteSize: 4}
		read.ID = timing.GetIDGenerator().Generate()
		read.Src = messaging.RemotePort("Agent")
		read.Dst = topPort.AsRemote()
		read.TrafficClass = "memprotocol.ReadReq"
		topPort.Deliver(read)
	}
	rob.Tick()
	rob.Tick()
	if len(rob.State.Transactions) != 2 {
		t.Fatalf("expected 2 in-flight transactions, got %d", len(rob.State.Transactions))
	}
	// answer the second transaction only
	second := rob.State.Transactions[1]
	rsp := memprotocol.DataReadyRsp{Data: []byte{1, 2, 3, 4}}
	rsp.ID = timing.GetIDGenerator().Generate()
	rsp.Src = messaging.RemotePort("BottomUnit")
	rsp.Dst = bottomPort.AsRemote()
	rsp.RspTo = second.ReqToBottomID
	rsp.TrafficClass = "memprotocol.DataReadyRsp"
	bottomPort.Deliver(rsp)
	rob.Tick()
	if !rob.State.Transactions[1].HasRsp || len(rob.State.Transactions) != 2 {
		t.Fatalf("second transaction should hold its response behind the head of line")
	}

	reset := memcontrolprotocol.Req{Command: memcontrolprotocol.CmdReset}
	reset.ID = timing.GetIDGenerator().Generate()
	reset.Src = messaging.RemotePort("Cmd")
	reset.Dst = ctrlPort.AsRemote()
	reset.TrafficClass = "memcontrolprotocol.Req"
	ctrlPort.Deliver(reset)
	acked := false
	for range 16 {
		rob.Tick()
		if msg := ctrlPort.RetrieveOutgoing(); msg != nil {
			if r, ok := msg.(memcontrolprotocol.Rsp); ok && r.Command == memcontrolprotocol.CmdReset {
				acked = true
				break
			}
		}
	}
	if !acked {
		t.Fatal("Reset was not acked")
	}
	for _, id := range rec.order {
		s := rec.started[id]
		if rec.ended[id] != 1 {
			t.Errorf("task %d (%s/%s) started once, ended %d time(s)", id, s.Kind, s.What, rec.ended[id])
		}
	}
	for id, n := range rec.ended {
		if _, ok := rec.started[id]; !ok {
			t.Errorf("task %d ended %d time(s) but never started", id, n)
		}
	}
}
