package tlb

import (
	"github.com/sarchlab/akita/v5/mem/vm"
	"testing"

	"github.com/sarchlab/akita/v5/mem"
	"github.com/sarchlab/akita/v5/mem/memcontrolprotocol"
	"github.com/sarchlab/akita/v5/mem/vm/vmprotocol"
	"github.com/sarchlab/akita/v5/messaging"
	"github.com/sarchlab/akita/v5/modeling"
	"github.com/sarchlab/akita/v5/timing"
	"github.com/sarchlab/akita/v5/tracing"
	"github.com/sarchlab/akita/v5/tracing/tracingtest"
)

// TestResetEndsInflightTracingTasks drives a translation lookup into the TLB so
// it misses and an MSHR entry with an outstanding bottom fetch is in flight —
// the request's req_in (and a pipeline subtask, if still staged) plus the
// shadow req_out for the bottom fetch are all open. It then issues a Reset and
// asserts every open task is ended, i.e. a mid-flight Reset leaves no
// started-never-ended task.
func TestProbeDEResetWhileResponding(t *testing.T) { //nolint:funlen
	engine := timing.NewSerialEngine()
	reg := modeling.NewStandaloneRegistrar(engine)

	remotePort := messaging.RemotePort("MMU")

	tlbComp := MakeBuilder().
		WithRegistrar(reg).
		WithSpec(DefaultSpec()).
		WithResources(Resources{
			TranslationProviderMapper: &mem.SinglePortMapper{
				Port: remotePort,
			},
		}).
		Build("TLB")

	assignDefaultPorts(reg, tlbComp)
	plugNoopConn(tlbComp)

	topPort := tlbComp.GetPortByName("Top")
	bottomPort := tlbComp.GetPortByName("Bottom")
	controlPort := tlbComp.GetPortByName("Control")

	rec := newCountingRec(t)
	tracing.CollectTrace(tlbComp, rec)

	// Deliver a lookup that misses (fresh TLB), so it is staged into the lookup
	// pipeline (opening req_in + a pipeline subtask) and, once it reaches the
	// lookup, creates an MSHR entry and forwards a bottom fetch (opening the
	// shadow req_out). The bottom fetch is never answered, so the miss stays in
	// flight.
	req := vmprotocol.TranslationReq{}
	req.ID = timing.GetIDGenerator().Generate()
	req.Src = messaging.RemotePort("Agent")
	req.Dst = topPort.AsRemote()
	req.PID = 1
	req.VAddr = 0x1000
	req.DeviceID = 1
	req.TrafficClass = "vmprotocol.TranslationReq"
	topPort.Deliver(req)

	// Tick until the bottom fetch is out, answer it, and stop as soon as the
	// answer has been staged in RespondingMSHRData (req_out finalized, the
	// response to the top not yet sent).
	var fetch vmprotocol.TranslationReq
	sent := false
	for i := 0; i < 64 && !sent; i++ {
		tlbComp.Tick()
		if out := bottomPort.RetrieveOutgoing(); out != nil {
			if r, ok := out.(vmprotocol.TranslationReq); ok {
				fetch, sent = r, true
			}
		}
	}
	if !sent {
		t.Fatal("no bottom fetch")
	}
	rsp := vmprotocol.TranslationRsp{}
	rsp.ID = timing.GetIDGenerator().Generate()
	rsp.Src = fetch.Dst
	rsp.Dst = bottomPort.AsRemote()
	rsp.RspTo = fetch.ID
	rsp.Page = vm.Page{PID: 1, VAddr: 0x1000, PAddr: 0x2000, PageSize: 4096, Valid: true}
	rsp.TrafficClass = "vmprotocol.TranslationRsp"
	bottomPort.Deliver(rsp)
	for i := 0; i < 16 && !tlbComp.State.HasRespondingMSHR; i++ {
		tlbComp.Tick()
	}
	if !tlbComp.State.HasRespondingMSHR {
		t.Fatal("answer was not staged")
	}

	// Reset while the miss is in flight.
	reset := memcontrolprotocol.Req{Command: memcontrolprotocol.CmdReset}
	reset.ID = timing.GetIDGenerator().Generate()
	reset.Src = messaging.RemotePort("Cmd")
	reset.Dst = controlPort.AsRemote()
	reset.TrafficClass = "memcontrolprotocol.Req"
	controlPort.Deliver(reset)

	acked := false
	for i := 0; i < 64; i++ {
		tlbComp.Tick()
		if msg := controlPort.RetrieveOutgoing(); msg != nil {
			if rsp, ok := msg.(memcontrolprotocol.Rsp); ok &&
				rsp.Command == memcontrolprotocol.CmdReset {
				acked = true
				break
			}
		}
	}

	if !acked {
		t.Fatal("Reset was not acked")
	}
	if open := rec.OpenTasks(); len(open) != 0 {
		t.Errorf("Reset left %d tracing task(s) unended: %s",
			len(open), rec.OpenSummary())
	}
}


type countingRec struct {
	tracingtest.LeakRecorder
	t     *testing.T
	kinds map[uint64]string
	ends  map[uint64]int
}

func newCountingRec(t *testing.T) *countingRec {
	r := &countingRec{t: t, kinds: map[uint64]string{}, ends: map[uint64]int{}}
	t.Cleanup(func() {
		for id, n := range r.ends {
			if n != 1 {
				t.Errorf("task %d (%s) ended %d times", id, r.kinds[id], n)
			}
		}
	})
	return r
}

func (r *countingRec) StartTask(s tracing.TaskStart) {
	r.kinds[s.ID] = s.Kind + "/" + s.What
	r.LeakRecorder.StartTask(s)
}

func (r *countingRec) EndTask(e tracing.TaskEnd) {
	if _, ok := r.kinds[e.ID]; ok {
		r.ends[e.ID]++
	}
	r.LeakRecorder.EndTask(e)
}
