package writethroughcache

import (
	"testing"

	"github.com/sarchlab/akita/v5/mem"
	"github.com/sarchlab/akita/v5/mem/memcontrolprotocol"
	"github.com/sarchlab/akita/v5/mem/memprotocol"
	"github.com/sarchlab/akita/v5/messaging"
	"github.com/sarchlab/akita/v5/modeling"
	"github.com/sarchlab/akita/v5/timing"
	"github.com/sarchlab/akita/v5/tracing"
	"github.com/sarchlab/akita/v5/tracing/tracingtest"
)

// TestResetEndsInflightTracingTasks drives a read miss into the writethrough
// cache so the transaction has both of its tracing tasks open — the req_in for
// the top request and the downstream req_out for the bottom fetch — then issues
// a Reset and asserts every task is ended. A mid-flight Reset drops the
// transaction table, so each started task must be ended by endInflightTasks or
// it leaks (and, for a req_in, leaks a receiver-registry entry too).
func TestProbeDEResetEndsInflightTracingTasks(t *testing.T) { //nolint:funlen
	engine := timing.NewSerialEngine()
	storage := mem.NewStorage(4 * mem.GB)
	reg := modeling.NewStandaloneRegistrar(engine)

	spec := DefaultSpec()
	spec.NumReqPerCycle = 1
	spec.NumBanks = 1
	spec.NumMSHREntry = 8
	spec.WayAssociativity = 2
	spec.Log2BlockSize = 6
	spec.BankLatency = 1
	spec.DirLatency = 1
	spec.TotalByteSize = 64 * 1024
	spec.MaxNumConcurrentTrans = 16

	comp := MakeBuilder().
		WithRegistrar(reg).
		WithSpec(spec).
		WithResources(Resources{
			Storage: storage,
			AddressMapper: &mem.SinglePortMapper{
				Port: messaging.RemotePort("LowerCache"),
			},
		}).
		Build("L1Cache")

	// Build declares the ports; assign every declared port instance and plug
	// each into a no-op connection before the component is ticked.
	assign := func(name string) messaging.Port {
		p := modeling.MakePortBuilder().
			WithRegistrar(reg).
			WithComponent(comp).
			WithSpec(modeling.PortSpec{BufSize: 16}).
			Build(name)
		comp.AssignPort(name, p)
		(&ccNoopConn{}).PlugIn(p)
		return p
	}

	topPort := assign("Top")
	bottomPort := assign("Bottom")
	ctrlPort := assign("Control")

	rec := newCountingRec(t)
	tracing.CollectTrace(comp, rec)

	// Admit a read miss. intake opens the req_in; the directory then issues a
	// bottom fetch (req_out) that is never answered, leaving the transaction in
	// flight with both its req_in and req_out tracing tasks open.
	read := memprotocol.ReadReq{Address: 0, AccessByteSize: 4}
	read.ID = timing.GetIDGenerator().Generate()
	read.Src = messaging.RemotePort("Agent")
	read.Dst = topPort.AsRemote()
	read.TrafficBytes = 12
	read.TrafficClass = "memprotocol.ReadReq"
	topPort.Deliver(read)

	// Tick until the bottom fetch has been sent, so the in-flight transaction
	// has HasReadToBottom set and its req_out task is open. Do NOT answer the
	// bottom request.
	bottomSent := false
	for i := 0; i < 256 && !bottomSent; i++ {
		comp.Tick()
		if out := bottomPort.RetrieveOutgoing(); out != nil {
			if _, ok := out.(memprotocol.ReadReq); ok {
				bottomSent = true
			}
		}
	}

	if !bottomSent {
		t.Fatal("bottom fetch was never issued; transaction not in flight")
	}

	// The transaction is genuinely in flight: a slot exists that is not yet
	// removed and has issued its downstream read.
	inflight := false
	for i := range comp.State.Transactions {
		trans := &comp.State.Transactions[i]
		if !trans.Removed && trans.HasReadToBottom {
			inflight = true
		}
	}
	if !inflight {
		t.Fatal("expected an in-flight transaction with a bottom read")
	}

	// Before the Reset the transaction's req_in and its downstream req_out are
	// open (the dir_pipeline subtask already closed when the fetch was issued).
	if open := rec.OpenTasks(); len(open) < 2 {
		t.Fatalf("expected req_in and req_out to be open, got %d: %s",
			len(open), rec.OpenSummary())
	}

	// Reset while the transaction is in flight.
	reset := memcontrolprotocol.Req{Command: memcontrolprotocol.CmdReset}
	reset.ID = timing.GetIDGenerator().Generate()
	reset.Src = messaging.RemotePort("Cmd")
	reset.Dst = ctrlPort.AsRemote()
	reset.TrafficClass = "memcontrolprotocol.Req"
	ctrlPort.Deliver(reset)

	acked := false
	for i := 0; i < 64 && !acked; i++ {
		comp.Tick()
		if msg := ctrlPort.RetrieveOutgoing(); msg != nil {
			if rsp, ok := msg.(memcontrolprotocol.Rsp); ok &&
				rsp.Command == memcontrolprotocol.CmdReset {
				acked = true
			}
		}
	}

	if !acked {
		t.Fatal("Reset was not acked")
	}
	if open := rec.OpenTasks(); len(open) != 0 {
		t.Errorf("Reset left %d tracing task(s) unended: %s",
			len(open), rec.OpenSummary())
	}
}


func TestProbeDECompleteThenReset(t *testing.T) { //nolint:funlen
	engine := timing.NewSerialEngine()
	storage := mem.NewStorage(4 * mem.GB)
	reg := modeling.NewStandaloneRegistrar(engine)

	spec := DefaultSpec()
	spec.NumReqPerCycle = 1
	spec.NumBanks = 1
	spec.NumMSHREntry = 8
	spec.WayAssociativity = 2
	spec.Log2BlockSize = 6
	spec.BankLatency = 1
	spec.DirLatency = 1
	spec.TotalByteSize = 64 * 1024
	spec.MaxNumConcurrentTrans = 16

	comp := MakeBuilder().
		WithRegistrar(reg).
		WithSpec(spec).
		WithResources(Resources{
			Storage: storage,
			AddressMapper: &mem.SinglePortMapper{
				Port: messaging.RemotePort("LowerCache"),
			},
		}).
		Build("L1Cache")

	// Build declares the ports; assign every declared port instance and plug
	// each into a no-op connection before the component is ticked.
	assign := func(name string) messaging.Port {
		p := modeling.MakePortBuilder().
			WithRegistrar(reg).
			WithComponent(comp).
			WithSpec(modeling.PortSpec{BufSize: 16}).
			Build(name)
		comp.AssignPort(name, p)
		(&ccNoopConn{}).PlugIn(p)
		return p
	}

	topPort := assign("Top")
	bottomPort := assign("Bottom")
	ctrlPort := assign("Control")

	rec := newCountingRec(t)
	tracing.CollectTrace(comp, rec)

	// Admit a read miss. intake opens the req_in; the directory then issues a
	// bottom fetch (req_out) that is never answered, leaving the transaction in
	// flight with both its req_in and req_out tracing tasks open.
	read := memprotocol.ReadReq{Address: 0, AccessByteSize: 4}
	read.ID = timing.GetIDGenerator().Generate()
	read.Src = messaging.RemotePort("Agent")
	read.Dst = topPort.AsRemote()
	read.TrafficBytes = 12
	read.TrafficClass = "memprotocol.ReadReq"
	topPort.Deliver(read)

	// Answer the bottom fetch and let the read complete.
	answered, responded := false, false
	for i := 0; i < 400 && !responded; i++ {
		comp.Tick()
		if out := bottomPort.RetrieveOutgoing(); out != nil && !answered {
			if rr, ok := out.(memprotocol.ReadReq); ok {
				rsp := memprotocol.DataReadyRsp{Data: make([]byte, 64)}
				rsp.ID = timing.GetIDGenerator().Generate()
				rsp.Src = rr.Dst
				rsp.Dst = bottomPort.AsRemote()
				rsp.RspTo = rr.ID
				rsp.TrafficClass = "memprotocol.DataReadyRsp"
				bottomPort.Deliver(rsp)
				answered = true
			}
		}
		if out := topPort.RetrieveOutgoing(); out != nil {
			responded = true
		}
	}
	if !responded {
		t.Fatalf("read did not complete (answered=%v)", answered)
	}

	// Reset while the transaction is in flight.
	reset := memcontrolprotocol.Req{Command: memcontrolprotocol.CmdReset}
	reset.ID = timing.GetIDGenerator().Generate()
	reset.Src = messaging.RemotePort("Cmd")
	reset.Dst = ctrlPort.AsRemote()
	reset.TrafficClass = "memcontrolprotocol.Req"
	ctrlPort.Deliver(reset)

	acked := false
	for i := 0; i < 64 && !acked; i++ {
		comp.Tick()
		if msg := ctrlPort.RetrieveOutgoing(); msg != nil {
			if rsp, ok := msg.(memcontrolprotocol.Rsp); ok &&
				rsp.Command == memcontrolprotocol.CmdReset {
				acked = true
			}
		}
	}

	if !acked {
		t.Fatal("Reset was not acked")
	}
	if open := rec.OpenTasks(); len(open) != 0 {
		t.Errorf("Reset left %d tracing task(s) unended: %s",
			len(open), rec.OpenSummary())
	}
}


func TestProbeDEWriteCompleteThenReset(t *testing.T) { //nolint:funlen
	engine := timing.NewSerialEngine()
	storage := mem.NewStorage(4 * mem.GB)
	reg := modeling.NewStandaloneRegistrar(engine)

	spec := DefaultSpec()
	spec.NumReqPerCycle = 1
	spec.NumBanks = 1
	spec.NumMSHREntry = 8
	spec.WayAssociativity = 2
	spec.Log2BlockSize = 6
	spec.BankLatency = 1
	spec.DirLatency = 1
	spec.TotalByteSize = 64 * 1024
	spec.MaxNumConcurrentTrans = 16

	comp := MakeBuilder().
		WithRegistrar(reg).
		WithSpec(spec).
		WithResources(Resources{
			Storage: storage,
			AddressMapper: &mem.SinglePortMapper{
				Port: messaging.RemotePort("LowerCache"),
			},
		}).
		Build("L1Cache")

	// Build declares the ports; assign every declared port instance and plug
	// each into a no-op connection before the component is ticked.
	assign := func(name string) messaging.Port {
		p := modeling.MakePortBuilder().
			WithRegistrar(reg).
			WithComponent(comp).
			WithSpec(modeling.PortSpec{BufSize: 16}).
			Build(name)
		comp.AssignPort(name, p)
		(&ccNoopConn{}).PlugIn(p)
		return p
	}

	topPort := assign("Top")
	bottomPort := assign("Bottom")
	ctrlPort := assign("Control")

	rec := newCountingRec(t)
	tracing.CollectTrace(comp, rec)

	// Admit a read miss. intake opens the req_in; the directory then issues a
	// bottom fetch (req_out) that is never answered, leaving the transaction in
	// flight with both its req_in and req_out tracing tasks open.
	read := memprotocol.WriteReq{Address: 0, Data: []byte{1, 2, 3, 4}}
	read.ID = timing.GetIDGenerator().Generate()
	read.Src = messaging.RemotePort("Agent")
	read.Dst = topPort.AsRemote()
	read.TrafficBytes = 12
	read.TrafficClass = "memprotocol.WriteReq"
	topPort.Deliver(read)

	// Answer the bottom fetch and let the read complete.
	answered, responded := false, false
	for i := 0; i < 400 && !responded; i++ {
		comp.Tick()
		if out := bottomPort.RetrieveOutgoing(); out != nil && !answered {
			if rr, ok := out.(memprotocol.WriteReq); ok {
				rsp := memprotocol.WriteDoneRsp{}
				rsp.ID = timing.GetIDGenerator().Generate()
				rsp.Src = rr.Dst
				rsp.Dst = bottomPort.AsRemote()
				rsp.RspTo = rr.ID
				rsp.TrafficClass = "memprotocol.WriteDoneRsp"
				bottomPort.Deliver(rsp)
				answered = true
			}
		}
		if out := topPort.RetrieveOutgoing(); out != nil {
			responded = true
		}
	}
	if !responded {
		t.Fatalf("read did not complete (answered=%v)", answered)
	}

	// Reset while the transaction is in flight.
	reset := memcontrolprotocol.Req{Command: memcontrolprotocol.CmdReset}
	reset.ID = timing.GetIDGenerator().Generate()
	reset.Src = messaging.RemotePort("Cmd")
	reset.Dst = ctrlPort.AsRemote()
	reset.TrafficClass = "memcontrolprotocol.Req"
	ctrlPort.Deliver(reset)

	acked := false
	for i := 0; i < 64 && !acked; i++ {
		comp.Tick()
		if msg := ctrlPort.RetrieveOutgoing(); msg != nil {
			if rsp, ok := msg.(memcontrolprotocol.Rsp); ok &&
				rsp.Command == memcontrolprotocol.CmdReset {
				acked = true
			}
		}
	}

	if !acked {
		t.Fatal("Reset was not acked")
	}
	if open := rec.OpenTasks(); len(open) != 0 {
		t.Errorf("Reset left %d tracing task(s) unended: %s",
			len(open), rec.OpenSummary())
	}
}


type countingRec struct {
	tracingtest.LeakRecorder
	t     *testing.T
	kinds map[uint64]string
	ends  map[uint64]int
}

func newCountingRec(t *testing.T) *countingRec {
	r := &countingRec{t: t, kinds: map[uint64]string{}, ends: map[uint64]int{}}
	t.Cleanup(func() {
		for id, n := range r.ends {
			if n != 1 {
				t.Errorf("task %d (%s) ended %d times", id, r.kinds[id], n)
			}
		}
	})
	return r
}

func (r *countingRec) StartTask(s tracing.TaskStart) {
	r.kinds[s.ID] = s.Kind + "/" + s.What
	r.LeakRecorder.StartTask(s)
}

func (r *countingRec) EndTask(e tracing.TaskEnd) {
	if _, ok := r.kinds[e.ID]; ok {
		r.ends[e.ID]++
	}
	r.LeakRecorder.EndTask(e)
}
