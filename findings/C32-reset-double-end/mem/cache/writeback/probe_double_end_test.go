package writeback

import (
	"testing"

	"github.com/sarchlab/akita/v5/mem"
	"github.com/sarchlab/akita/v5/mem/memcontrolprotocol"
	"github.com/sarchlab/akita/v5/mem/memprotocol"
	"github.com/sarchlab/akita/v5/messaging"
	"github.com/sarchlab/akita/v5/modeling"
	"github.com/sarchlab/akita/v5/timing"
	"github.com/sarchlab/akita/v5/tracing"
	"github.com/sarchlab/akita/v5/tracing/tracingtest"
)

// TestResetEndsInflightTracingTasks drives a read MISS into the writeback cache
// so it opens a transaction and sends a fetch ReadReq out the Bottom port —
// leaving the req_in, the fetch req_out, and the directory-pipeline subtask
// open — then issues a Reset without answering the fetch and asserts every
// task the transaction opened is ended. A mid-flight Reset that drops the
// transaction table must leave no started-never-ended task (and no leaked
// receiver-registry entry).
func TestProbeDECompleteThenReset(t *testing.T) { //nolint:funlen
	engine := timing.NewSerialEngine()
	storage := mem.NewStorage(1 * mem.MB)

	spec := DefaultSpec()
	spec.TotalByteSize = 64 * 1024
	spec.NumBanks = 1
	spec.NumMSHREntry = 16
	spec.NumReqPerCycle = 4
	spec.WayAssociativity = 2
	spec.Log2BlockSize = 6
	spec.BankLatency = 1
	spec.DirLatency = 1

	comp := MakeBuilder().
		WithRegistrar(modeling.NewStandaloneRegistrar(engine)).
		WithSpec(spec).
		WithResources(Resources{
			Storage: storage,
			AddressToPortMapper: &mem.SinglePortMapper{
				Port: messaging.RemotePort("LowerCache"),
			},
		}).
		Build("L1Cache")

	for _, name := range []string{"Top", "Bottom", "Control"} {
		comp.AssignPort(name,
			messaging.NewPort(comp, 16, 16, comp.Name()+"."+name))
	}
	topPort := comp.GetPortByName("Top")
	botPort := comp.GetPortByName("Bottom")
	ctrlPort := comp.GetPortByName("Control")
	for _, p := range []messaging.Port{topPort, botPort, ctrlPort} {
		(&ccNoopConn{}).PlugIn(p)
	}

	rec := newCountingRec(t)
	tracing.CollectTrace(comp, rec)

	// Deliver a read that MISSES: the cache opens a transaction and forwards a
	// fetch ReadReq out the Bottom port. We never answer it, so req_in, the
	// fetch req_out, and the directory-pipeline subtask stay open.
	read := memprotocol.ReadReq{}
	read.ID = timing.GetIDGenerator().Generate()
	read.Src = messaging.RemotePort("Agent")
	read.Dst = topPort.AsRemote()
	read.Address = 0x10000
	read.AccessByteSize = 4
	read.TrafficBytes = 12
	read.TrafficClass = "memprotocol.ReadReq"
	topPort.Deliver(read)

	// Answer the fetch and let the read complete; the slot is retired.
	answered, responded := false, false
	for i := 0; i < 400 && !responded; i++ {
		comp.Tick()
		if out := botPort.RetrieveOutgoing(); out != nil && !answered {
			if rr, ok := out.(memprotocol.ReadReq); ok {
				rsp := memprotocol.DataReadyRsp{Data: make([]byte, 64)}
				rsp.ID = timing.GetIDGenerator().Generate()
				rsp.Src = rr.Dst
				rsp.Dst = botPort.AsRemote()
				rsp.RspTo = rr.ID
				rsp.TrafficClass = "memprotocol.DataReadyRsp"
				botPort.Deliver(rsp)
				answered = true
			}
		}
		if out := topPort.RetrieveOutgoing(); out != nil {
			responded = true
		}
	}
	if !responded {
		t.Fatalf("read did not complete (answered=%v)", answered)
	}
	for i := 0; i < 20; i++ {
		comp.Tick()
	}
	if open := rec.OpenTasks(); len(open) != 0 {
		t.Fatalf("tasks still open after completion: %s", rec.OpenSummary())
	}

	// Reset while the fetch is in flight.
	reset := memcontrolprotocol.Req{Command: memcontrolprotocol.CmdReset}
	reset.ID = timing.GetIDGenerator().Generate()
	reset.Src = messaging.RemotePort("Cmd")
	reset.Dst = ctrlPort.AsRemote()
	reset.TrafficClass = "memcontrolprotocol.Req"
	ctrlPort.Deliver(reset)

	acked := false
	for i := 0; i < 64 && !acked; i++ {
		comp.Tick()
		if msg := ctrlPort.RetrieveOutgoing(); msg != nil {
			if rsp, ok := msg.(memcontrolprotocol.Rsp); ok &&
				rsp.Command == memcontrolprotocol.CmdReset {
				acked = true
			}
		}
	}

	if !acked {
		t.Fatal("Reset was not acked")
	}
	if open := rec.OpenTasks(); len(open) != 0 {
		t.Errorf("Reset left %d tracing task(s) unended: %s",
			len(open), rec.OpenSummary())
	}
}


type countingRec struct {
	tracingtest.LeakRecorder
	t     *testing.T
	kinds map[uint64]string
	ends  map[uint64]int
}

func newCountingRec(t *testing.T) *countingRec {
	r := &countingRec{t: t, kinds: map[uint64]string{}, ends: map[uint64]int{}}
	t.Cleanup(func() {
		for id, n := range r.ends {
			if n != 1 {
				t.Errorf("task %d (%s) ended %d times", id, r.kinds[id], n)
			}
		}
	})
	return r
}

func (r *countingRec) StartTask(s tracing.TaskStart) {
	r.kinds[s.ID] = s.Kind + "/" + s.What
	r.LeakRecorder.StartTask(s)
}

func (r *countingRec) EndTask(e tracing.TaskEnd) {
	if _, ok := r.kinds[e.ID]; ok {
		r.ends[e.ID]++
	}
	r.LeakRecorder.EndTask(e)
}
