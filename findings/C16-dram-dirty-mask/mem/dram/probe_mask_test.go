package dram

import (
	"testing"

	"github.com/sarchlab/akita/v5/mem"
	"github.com/sarchlab/akita/v5/mem/memprotocol"
	"github.com/sarchlab/akita/v5/messaging"
	"github.com/sarchlab/akita/v5/modeling"
	"github.com/sarchlab/akita/v5/timing"
)

// A masked write must leave the bytes whose mask bit is false untouched.
func TestProbeMaskedWriteLeavesUnmaskedBytes(t *testing.T) {
	engine := timing.NewSerialEngine()
	reg := modeling.NewStandaloneRegistrar(engine)
	storage := mem.NewStorage(1 * mem.MB)
	comp := MakeBuilder().WithRegistrar(reg).
		WithResources(Resources{Storage: storage}).Build("DRAM")
	assign := func(name string) messaging.Port {
		p := modeling.MakePortBuilder().WithRegistrar(reg).WithComponent(comp).
			WithSpec(modeling.PortSpec{BufSize: 16}).Build(name)
		comp.AssignPort(name, p)
		(&noopConn{}).PlugIn(p)
		return p
	}
	top := assign("Top")
	assign("Control")

	send := func(w memprotocol.WriteReq) {
		w.ID = timing.GetIDGenerator().Generate()
		w.Src = messaging.RemotePort("Agent")
		w.Dst = top.AsRemote()
		w.TrafficClass = "memprotocol.WriteReq"
		top.Deliver(w)
		for i := 0; i < 5000; i++ {
			comp.Tick()
			if top.RetrieveOutgoing() != nil {
				return
			}
		}
		t.Fatal("write not acknowledged")
	}
	full := make([]byte, 64)
	for i := range full {
		full[i] = 0xAA
	}
	send(memprotocol.WriteReq{Address: 0x1000, Data: full})

	masked := make([]byte, 64)
	mask := make([]bool, 64)
	for i := range masked {
		masked[i] = 0xBB
	}
	mask[3] = true
	send(memprotocol.WriteReq{Address: 0x1000, Data: masked, DirtyMask: mask})

	got, err := storage.Read(0x1000, 64)
	if err != nil {
		t.Fatal(err)
	}
	for i, b := range got {
		want := byte(0xAA)
		if i == 3 {
			want = 0xBB
		}
		if b != want {
			t.Fatalf("byte %d = %#x, want %#x (unmasked bytes must keep their old value)", i, b, want)
		}
	}
}
