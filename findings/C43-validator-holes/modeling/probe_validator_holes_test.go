package modeling

import (
	"encoding/json"
	"reflect"
	"testing"
)

type probeCustom struct{ hidden int }

func (c probeCustom) MarshalJSON() ([]byte, error)  { return json.Marshal(c.hidden) }
func (c *probeCustom) UnmarshalJSON(b []byte) error { return json.Unmarshal(b, &c.hidden) }

// Count is an ordinary exported field; MarshalJSON/UnmarshalJSON are promoted
// from the embedded probeCustom, so encoding/json never sees Count.
type probePromoted struct {
	Count int
	probeCustom
}

// Two fields with the same JSON name at the same depth: encoding/json drops both.
type probeDupNames struct {
	A int `json:"x"`
	B int `json:"x"`
}

func roundTrip[T any](t *testing.T, v T) T {
	t.Helper()
	data, err := json.Marshal(v)
	if err != nil {
		t.Fatal(err)
	}
	var out T
	if err := json.Unmarshal(data, &out); err != nil {
		t.Fatal(err)
	}
	return out
}

func TestProbeValidatorAcceptsPromotedMarshaler(t *testing.T) {
	if err := validateStructType(reflect.TypeOf(probePromoted{}), "State", true); err != nil {
		t.Skipf("rejected (good): %v", err)
	}
	in := probePromoted{Count: 7, probeCustom: probeCustom{hidden: 3}}
	out := roundTrip(t, in)
	if !reflect.DeepEqual(in, out) {
		t.Fatalf("validator accepted the type, but the round trip gives %+v for %+v", out, in)
	}
}

func TestProbeValidatorAcceptsDuplicateJSONNames(t *testing.T) {
	if err := validateStructType(reflect.TypeOf(probeDupNames{}), "State", true); err != nil {
		t.Skipf("rejected (good): %v", err)
	}
	in := probeDupNames{A: 1, B: 2}
	out := roundTrip(t, in)
	if !reflect.DeepEqual(in, out) {
		t.Fatalf("validator accepted the type, but the round trip gives %+v for %+v", out, in)
	}
}
