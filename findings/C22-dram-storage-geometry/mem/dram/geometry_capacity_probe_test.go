package dram

import (
	"bytes"
	"fmt"
	"testing"
)

// Every address that the controller's own geometry decode can distinguish
// (row/bank/bank-group/rank/column all in range) is a legal request for that
// preset. With the internally built storage ("sized from the geometry spec")
// a write followed by a read of the LAST access unit of the geometry must
// complete and return the written data.
func TestProbeLastGeometryAddressCompletes(t *testing.T) {
	presets := []struct {
		name string
		spec Spec
	}{
		{"Default", DefaultSpec()}, {"DDR4", DDR4Spec}, {"DDR5", DDR5Spec},
		{"HBM2", HBM2Spec}, {"HBM3", HBM3Spec}, {"GDDR6", GDDR6Spec},
	}
	for _, p := range presets {
		t.Run(p.name, func(t *testing.T) {
			h := newP0Harness(p.spec)
			ns := h.dram.Spec()
			unit := uint64(ns.BusWidth / 8 * ns.BurstLength)

			// Highest address the decode distinguishes: all fields at max.
			last := ns.RowMask<<uint(ns.RowPos) |
				ns.RankMask<<uint(ns.RankPos) |
				ns.BankMask<<uint(ns.BankPos) |
				ns.BankGroupMask<<uint(ns.BankGroupPos) |
				ns.ColMask<<uint(ns.ColPos)
			geomBytes := last + unit
			capBytes := h.dram.Resources().Storage.Capacity()
			t.Logf("geometry addresses %d bytes, backing storage %d bytes",
				geomBytes, capBytes)

			loc := mapAddress(&ns, last)
			if loc.Row != uint64(ns.NumRow-1) || loc.Bank != uint64(ns.NumBank-1) ||
				loc.BankGroup != uint64(ns.NumBankGroup-1) {
				t.Fatalf("test bug: %x does not decode to the last bank/row: %+v", last, loc)
			}

			data := bytes.Repeat([]byte{0x5A}, int(unit))
			var failure string
			func() {
				defer func() {
					if r := recover(); r != nil {
						failure = fmt.Sprint(r)
					}
				}()
				h.src.Send(h.write(last, data))
				r := h.read(last)
				r.AccessByteSize = unit
				h.src.Send(r)
				if err := h.engine.Run(); err != nil {
					failure = err.Error()
				}
			}()
			if failure != "" {
				t.Fatalf("request to in-geometry address 0x%x (row %d, bg %d, bank %d) "+
					"did not complete: %s (geometry %d B, storage %d B)",
					last, loc.Row, loc.BankGroup, loc.Bank, failure, geomBytes, capBytes)
			}
			reads, writes := h.collect()
			if len(reads) != 1 || len(writes) != 1 || !bytes.Equal(reads[0].Data, data) {
				t.Fatalf("got %d read / %d write responses", len(reads), len(writes))
			}
		})
	}
}
