package simulation_test

import (
	"bytes"
	"compress/gzip"
	"fmt"
	"io"
	"math/rand"
	"os"
	"path/filepath"
	"testing"

	"github.com/sarchlab/akita/v5/mem"
	"github.com/sarchlab/akita/v5/simulation"
)

const probeBuildID = "c07-probe"

// buildStorageSim assembles the same tiny simulation every time: the engine,
// the ID generator and one registered storage resource.
func buildStorageSim(t *testing.T) (*simulation.Simulation, *mem.Storage) {
	t.Helper()

	sim := simulation.MakeBuilder().WithoutMonitoring().Build()
	t.Cleanup(func() {
		sim.Terminate()
		os.Remove("akita_sim_" + sim.ID() + ".sqlite3")
	})

	storage := mem.MakeStorageBuilder().
		WithCapacity(64 * mem.KB).
		WithUnitSize(256).
		WithSimulation(sim).
		Build("Mem")

	return sim, storage
}

// gzipIntegrityError fully decompresses the file the way any gzip consumer
// does, which is what verifies the CRC-32/ISIZE trailer.
func gzipIntegrityError(file []byte) error {
	gz, err := gzip.NewReader(bytes.NewReader(file))
	if err != nil {
		return err
	}
	_, err = io.Copy(io.Discard, gz)
	return err
}

// TestCorruptedArchiveBitFlipProbe saves a real checkpoint, then flips every
// single bit of the archive file in turn and loads the damaged file into a
// rebuilt simulation. A gzip archive carries a CRC-32 of its contents, so every
// damaged file either has to be rejected or has to restore exactly the saved
// state (a flip in a don't-care gzip header byte such as MTIME/XFL/OS). The
// property is violated when a damaged archive loads with a nil error AND the
// restored memory contents differ from the saved ones.
func TestCorruptedArchiveBitFlipProbe(t *testing.T) {
	dir := t.TempDir()
	goodPath := filepath.Join(dir, "good.tar.gz")
	badPath := filepath.Join(dir, "bad.tar.gz")
	resavedPath := filepath.Join(dir, "resaved.tar.gz")

	srcSim, srcStorage := buildStorageSim(t)
	rng := rand.New(rand.NewSource(7))
	content := make([]byte, 4*256)
	rng.Read(content)
	if err := srcStorage.Write(0, content); err != nil {
		t.Fatal(err)
	}
	if err := srcSim.SaveCheckpoint(goodPath, probeBuildID); err != nil {
		t.Fatalf("SaveCheckpoint: %v", err)
	}

	good, err := os.ReadFile(goodPath)
	if err != nil {
		t.Fatal(err)
	}

	dstSim, dstStorage := buildStorageSim(t)

	// Sanity: the undamaged archive loads and re-saves byte-identically.
	if err := dstSim.LoadCheckpoint(goodPath, probeBuildID); err != nil {
		t.Fatalf("LoadCheckpoint(good): %v", err)
	}
	if err := dstSim.SaveCheckpoint(resavedPath, probeBuildID); err != nil {
		t.Fatal(err)
	}
	resaved, _ := os.ReadFile(resavedPath)
	if !bytes.Equal(good, resaved) {
		t.Fatalf("undamaged archive is not canonical")
	}

	silentlyWrong := 0      // loaded with nil error, different state restored
	wrongButCRCCatches := 0 // ... of which a full gzip read reports an error
	acceptedSame := 0       // loaded with nil error, identical state
	firstReport := ""

	for pos := 0; pos < len(good); pos++ {
		for bit := 0; bit < 8; bit++ {
			bad := append([]byte(nil), good...)
			bad[pos] ^= 1 << bit
			if err := os.WriteFile(badPath, bad, 0o600); err != nil {
				t.Fatal(err)
			}

			var loadErr error
			func() {
				defer func() {
					if r := recover(); r != nil {
						t.Errorf("LoadCheckpoint panicked on flip byte %d bit %d: %v",
							pos, bit, r)
						loadErr = fmt.Errorf("panic: %v", r)
					}
				}()
				loadErr = dstSim.LoadCheckpoint(badPath, probeBuildID)
			}()
			if loadErr != nil {
				continue
			}

			got, err := dstStorage.Read(0, uint64(len(content)))
			if err != nil {
				t.Fatal(err)
			}
			if bytes.Equal(got, content) {
				acceptedSame++
				continue
			}

			silentlyWrong++
			gzErr := gzipIntegrityError(bad)
			if gzErr != nil {
				wrongButCRCCatches++
			}

			if firstReport == "" && !bytes.Equal(got, content) {
				diff := 0
				for i := range got {
					if got[i] != content[i] {
						diff = i
						break
					}
				}
				firstReport = fmt.Sprintf(
					"flipping bit %d of archive byte %d: LoadCheckpoint "+
						"returned nil, storage[%d] restored as %#02x but %#02x "+
						"was saved (a full gzip read of the same file fails "+
						"with: %v)",
					bit, pos, diff, got[diff], content[diff], gzErr)
			}
		}
	}

	t.Logf("archive is %d bytes = %d single-bit corruptions; %d of them "+
		"loaded with identical memory contents (harmless)", len(good), len(good)*8,
		acceptedSame)

	if silentlyWrong > 0 {
		t.Fatalf("%d single-bit corruptions of the archive were loaded WITHOUT "+
			"an error and restored different memory contents; compress/gzip "+
			"itself reports a checksum/format error for %d of them when the "+
			"stream is read to its end. First: %s",
			silentlyWrong, wrongButCRCCatches, firstReport)
	}
}
