package mem_test

import (
	"bytes"
	"encoding/binary"
	"os"
	"os/exec"
	"strings"
	"syscall"
	"testing"

	"github.com/sarchlab/akita/v5/mem"
)

// storagePayload hand-crafts a storage checkpoint payload: the header
// (capacity, unit size, unit count) followed by the given raw unit records.
func storagePayload(capacity, unitSize, numUnits uint64, records ...[]byte) []byte {
	var buf bytes.Buffer
	var word [8]byte
	for _, v := range []uint64{capacity, unitSize, numUnits} {
		binary.LittleEndian.PutUint64(word[:], v)
		buf.Write(word[:])
	}
	for _, r := range records {
		buf.Write(r)
	}
	return buf.Bytes()
}

func unitRecord(addr uint64, fill byte, unitSize int) []byte {
	rec := make([]byte, 8+unitSize)
	binary.LittleEndian.PutUint64(rec, addr)
	for i := 8; i < len(rec); i++ {
		rec[i] = fill
	}
	return rec
}

const hugeCountChildEnv = "C07_STORAGE_HUGE_COUNT_CHILD"

// TestStorageLoadHugeUnitCountProbe feeds Storage.LoadCheckpoint a 24-byte
// payload whose shape (capacity, unit size) matches the rebuilt storage but
// whose unit count is 2^38 with no unit records following. The payload is
// obviously truncated, so LoadCheckpoint has to return an error. Instead it
// pre-sizes a map for 2^38 entries (make(map, numUnits)) before reading a single record, which the Go
// runtime cannot satisfy: the process dies with an unrecoverable
// "fatal error: runtime: out of memory" (worse than a panic: no recover()).
//
// The dangerous call runs in a child process whose address space is capped at
// 2 GiB so the probe cannot hurt the machine; a 1 MiB storage that can hold at
// most 256 units has no business allocating anywhere near that.
func TestStorageLoadHugeUnitCountProbe(t *testing.T) {
	payload := storagePayload(1*mem.MB, 4*mem.KB, 1<<38)

	if os.Getenv(hugeCountChildEnv) == "1" {
		limit := syscall.Rlimit{Cur: 2 << 30, Max: 2 << 30}
		if err := syscall.Setrlimit(syscall.RLIMIT_AS, &limit); err != nil {
			t.Fatalf("setrlimit: %v", err)
		}

		storage := mem.NewStorage(1 * mem.MB)
		err := storage.LoadCheckpoint(bytes.NewReader(payload))
		if err == nil {
			t.Fatalf("truncated payload was accepted")
		}
		t.Logf("CHILD-OK LoadCheckpoint returned error: %v", err)
		return
	}

	cmd := exec.Command(os.Args[0],
		"-test.run=^TestStorageLoadHugeUnitCountProbe$", "-test.v")
	cmd.Env = append(os.Environ(), hugeCountChildEnv+"=1")
	out, err := cmd.CombinedOutput()
	output := string(out)

	if err != nil || !strings.Contains(output, "CHILD-OK") {
		var lines []string
		for i, line := range strings.Split(output, "\n") {
			if i < 3 || strings.Contains(line, "makemap") ||
				strings.Contains(line, "LoadCheckpoint(") {
				lines = append(lines, line)
			}
		}
		t.Fatalf("loading a %d-byte malformed storage payload (unit count 2^38, "+
			"no records) did not return an error; the process crashed (%v):\n%s",
			len(payload), err, strings.Join(lines, "\n"))
	}
}

// TestStorageLoadImpossibleUnitsProbe hand-crafts a payload whose header
// matches the rebuilt 1 MiB / 4 KiB-unit storage but whose unit table is
// impossible: the same unaligned address twice and an address far beyond the
// capacity. No Storage can ever produce it, so it is malformed and must be
// rejected; LoadCheckpoint accepts it.
func TestStorageLoadImpossibleUnitsProbe(t *testing.T) {
	const unitSize = 4096
	payload := storagePayload(1*mem.MB, unitSize, 3,
		unitRecord(0x10, 0xAA, unitSize),  // not a multiple of the unit size
		unitRecord(0x10, 0xBB, unitSize),  // duplicate of the previous one
		unitRecord(1<<40, 0xCC, unitSize), // beyond the 1 MiB capacity
	)

	storage := mem.NewStorage(1 * mem.MB)
	err := storage.LoadCheckpoint(bytes.NewReader(payload))
	if err == nil {
		var resaved bytes.Buffer
		_ = storage.SaveCheckpoint(&resaved)
		t.Fatalf("malformed unit table (duplicate, unaligned and out-of-capacity "+
			"addresses) was loaded without an error; payload was %d bytes, the "+
			"storage re-saves as %d bytes", len(payload), resaved.Len())
	}
}
