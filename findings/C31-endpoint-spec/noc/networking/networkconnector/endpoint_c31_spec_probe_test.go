package networkconnector_test

import (
	"fmt"
	"testing"

	"github.com/sarchlab/akita/v5/messaging"
	"github.com/sarchlab/akita/v5/modeling"
	"github.com/sarchlab/akita/v5/noc/directconnection"
	"github.com/sarchlab/akita/v5/noc/networking/switching/endpoint"
	"github.com/sarchlab/akita/v5/timing"
)

// c31sMsg is a plain traffic message.
type c31sMsg struct {
	messaging.MsgMeta
}

// c31sAgent owns one port, sends a scripted list of messages through it and
// counts what comes back in.
type c31sAgent struct {
	*modeling.TickingComponent

	port     messaging.Port
	toSend   []c31sMsg
	received []messaging.MsgMeta
}

func newC31sAgent(engine timing.Engine, name string) *c31sAgent {
	a := &c31sAgent{}
	a.TickingComponent = modeling.NewTickingComponent(
		name, engine, 1*timing.GHz, a)
	a.port = messaging.NewPort(a, 4, 4, name+".Port")

	return a
}

func (a *c31sAgent) Tick() bool {
	progress := false

	if len(a.toSend) > 0 && a.port.CanSend() {
		a.port.Send(a.toSend[0])
		a.toSend = a.toSend[1:]
		progress = true
	}

	for {
		m := a.port.RetrieveIncoming()
		if m == nil {
			break
		}
		a.received = append(a.received, m.Meta())
		progress = true
	}

	return progress
}

// runC31Spec wires  Sender - EP[0] === direct link === EP[1] - Receiver  (two
// endpoints connected back to back, the arrangement SetDefaultSwitchDst
// documents), sends one message of trafficBytes through it and reports how
// often the receiver got it.
//
// rejected  = the endpoint builder refused the spec (the acceptable outcome for
//
//	a meaningless configuration)
//
// runPanic  = the simulation blew up while packetizing
func runC31Spec(spec endpoint.Spec, trafficBytes int) (
	rejected bool, runPanic any, delivered int,
) {
	engine := timing.NewSerialEngine()
	reg := modeling.NewStandaloneRegistrar(engine)

	sender := newC31sAgent(engine, "Sender")
	receiver := newC31sAgent(engine, "Receiver")

	var eps [2]*endpoint.Comp

	func() {
		defer func() {
			if r := recover(); r != nil {
				rejected = true
			}
		}()

		for i, ag := range []*c31sAgent{sender, receiver} {
			eps[i] = endpoint.MakeBuilder().
				WithRegistrar(reg).
				WithSpec(spec).
				WithResources(endpoint.Resources{
					DevicePorts: []messaging.Port{ag.port},
				}).
				Build(fmt.Sprintf("EP[%d]", i))
		}
	}()

	if rejected {
		return true, nil, 0
	}

	link := directconnection.MakeBuilder().
		WithRegistrar(reg).
		WithSpec(directconnection.Spec{Freq: 1 * timing.GHz}).
		Build("Link")

	var netPorts [2]messaging.Port
	for i, ep := range eps {
		netPorts[i] = messaging.NewPort(ep, 4, 4, ep.Name()+".NetworkPort")
		ep.SetNetworkPort(netPorts[i])
		link.PlugIn(netPorts[i])
	}
	eps[0].SetDefaultSwitchDst(netPorts[1].AsRemote())
	eps[1].SetDefaultSwitchDst(netPorts[0].AsRemote())

	sender.toSend = []c31sMsg{{MsgMeta: messaging.MsgMeta{
		ID:           timing.GetIDGenerator().Generate(),
		Src:          sender.port.AsRemote(),
		Dst:          receiver.port.AsRemote(),
		TrafficBytes: trafficBytes,
	}}}
	sender.TickLater()

	func() {
		defer func() { runPanic = recover() }()

		if err := engine.Run(); err != nil {
			panic(err)
		}
	}()

	return false, runPanic, len(receiver.received)
}

func c31Spec(flitByteSize int, overhead float64) endpoint.Spec {
	spec := endpoint.DefaultSpec()
	spec.FlitByteSize = flitByteSize
	spec.EncodingOverhead = overhead

	return spec
}

// Control: sane specs go through this harness exactly once.
func TestC31ProbeSpecControl(t *testing.T) {
	for _, tc := range []struct {
		flit  int
		ov    float64
		bytes int
	}{{32, 0.25, 0}, {32, 0.25, 40}, {16, 0, 16}, {8, 0.07, 800}} {
		rejected, p, n := runC31Spec(c31Spec(tc.flit, tc.ov), tc.bytes)
		if rejected || p != nil || n != 1 {
			t.Errorf("flit=%d overhead=%v bytes=%d: rejected=%v panic=%v "+
				"delivered=%d, want one delivery",
				tc.flit, tc.ov, tc.bytes, rejected, p, n)
		}
	}
}

// Every spec the endpoint builder ACCEPTS must packetize every message into at
// least one flit and deliver it exactly once. A spec that cannot do so (flit
// size <= 0, overhead that makes the encoded size negative) has to be refused
// at Build time -- as the sibling PCIe/NVLink connectors already do for a zero
// flit size ("flit size is 0").
func TestC31ProbeAcceptedSpecLosesMessage(t *testing.T) {
	for _, tc := range []struct {
		name  string
		flit  int
		ov    float64
		bytes int
	}{
		// (20-1)/-16 + 1 == 0 flits
		{"negative flit size", -16, 0.25, 16},
		// 40 + ceil(40*-2) = -40 ; (-41)/32 + 1 == 0 flits
		{"overhead below -1", 32, -2, 40},
		// zero value of Spec.FlitByteSize: integer divide by zero, but only
		// once the first message with TrafficBytes > 0 shows up
		{"zero flit size", 0, 0.25, 64},
	} {
		rejected, p, n := runC31Spec(c31Spec(tc.flit, tc.ov), tc.bytes)

		switch {
		case rejected:
			t.Logf("%s: builder rejected the spec (good)", tc.name)
		case p != nil:
			t.Errorf("%s: builder accepted FlitByteSize=%d "+
				"EncodingOverhead=%v, then packetizing a %d-byte message "+
				"panicked mid-simulation: %v",
				tc.name, tc.flit, tc.ov, tc.bytes, p)
		case n != 1:
			t.Errorf("%s: builder accepted FlitByteSize=%d "+
				"EncodingOverhead=%v, then a %d-byte message was split into "+
				"zero flits: delivered %d times, want exactly once "+
				"(simulation ended normally, message silently gone)",
				tc.name, tc.flit, tc.ov, tc.bytes, n)
		}
	}
}
