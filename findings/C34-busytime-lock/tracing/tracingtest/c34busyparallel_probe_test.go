package tracingtest_test

import (
	"fmt"
	"sync"
	"testing"

	"github.com/sarchlab/akita/v5/hooking"
	"github.com/sarchlab/akita/v5/timing"
	"github.com/sarchlab/akita/v5/tracing"
)

// c34Worker is a minimal traced domain: on a "start" event it opens one task,
// on an "end" event it closes it. It only ever touches its own state, so it is
// a perfectly legal ParallelEngine handler.
type c34Worker struct {
	hooking.HookableBase

	name   string
	engine timing.Engine
	taskID uint64
}

func (w *c34Worker) Name() string                       { return w.name }
func (w *c34Worker) CurrentTime() timing.VTimeInPicoSec { return w.engine.CurrentTime() }

type c34Evt struct {
	timing.EventBase
	start bool
}

func (w *c34Worker) Handle(e timing.Event) error {
	evt := e.(c34Evt)
	if evt.start {
		w.taskID = timing.GetIDGenerator().Generate()
		tracing.StartTask(w, tracing.TaskStart{
			ID: w.taskID, Kind: "job", What: "job",
		})
	} else {
		tracing.EndTask(w, tracing.TaskEnd{ID: w.taskID})
	}

	return nil
}

// Property C34: for any stream of start/end events in time order the busy-time
// tracer reports the length of the union of the task intervals. Under the
// ParallelEngine the same-time events of different components are delivered
// from different goroutines; the stream is still in time order. Every other
// tracer in the package (TotalTimeTracer, AverageTimeTracer, TagCountTracer,
// BackTraceTracer, DBTracer) guards its state with a mutex; BusyTimeTracer does
// not, so its map/list are corrupted (or the runtime aborts with "concurrent map
// writes").
func TestC34BusyTimeTracerUnderParallelEngine(t *testing.T) {
	busy := tracing.NewBusyTimeTracer(
		func(tracing.TaskStart) bool { return true })
	c34RunParallel(t, busy, busy)
}

// c34Locked serializes a tracer the way the sibling tracers serialize
// themselves. The control test below shows that the harness and the expected
// value are right: the only thing missing from BusyTimeTracer is the lock.
type c34Locked struct {
	tracing.NopTracer

	mu    sync.Mutex
	inner tracing.Tracer
}

func (l *c34Locked) StartTask(s tracing.TaskStart) {
	l.mu.Lock()
	defer l.mu.Unlock()
	l.inner.StartTask(s)
}

func (l *c34Locked) EndTask(e tracing.TaskEnd) {
	l.mu.Lock()
	defer l.mu.Unlock()
	l.inner.EndTask(e)
}

func TestC34BusyTimeTracerSerializedControl(t *testing.T) {
	busy := tracing.NewBusyTimeTracer(
		func(tracing.TaskStart) bool { return true })
	c34RunParallel(t, &c34Locked{inner: busy}, busy)
}

func c34RunParallel(
	t *testing.T,
	attach tracing.Tracer,
	busy *tracing.BusyTimeTracer,
) {
	const (
		numWorkers = 64
		numRounds  = 200
		period     = timing.VTimeInPicoSec(1000)
		duration   = timing.VTimeInPicoSec(500)
	)

	engine := timing.NewParallelEngine()

	all := func(tracing.TaskStart) bool { return true }
	total := tracing.NewTotalTimeTracer(all) // control: mutex-guarded sibling

	for i := 0; i < numWorkers; i++ {
		w := &c34Worker{name: fmt.Sprintf("W%d", i), engine: engine}
		engine.RegisterHandler(w.name, w)
		tracing.CollectTrace(w, attach)
		tracing.CollectTrace(w, total)

		for r := 0; r < numRounds; r++ {
			base := timing.VTimeInPicoSec(r+1) * period
			engine.Schedule(c34Evt{
				EventBase: timing.MakeEventBase(base, w.name), start: true})
			engine.Schedule(c34Evt{
				EventBase: timing.MakeEventBase(base+duration, w.name), start: false})
		}
	}

	if err := engine.Run(); err != nil {
		t.Fatal(err)
	}

	wantTotal := timing.VTimeInPicoSec(numWorkers*numRounds) * duration
	if got := total.TotalTime(); got != wantTotal {
		t.Fatalf("control: TotalTime = %d, want %d", got, wantTotal)
	}

	// In every round all workers are busy over the same [base, base+500]
	// interval, so the union is numRounds * 500.
	wantBusy := timing.VTimeInPicoSec(numRounds) * duration
	if got := busy.BusyTime(); got != wantBusy {
		t.Fatalf("BusyTime = %d, want %d (TotalTime control was exact: %d)",
			got, wantBusy, total.TotalTime())
	}
}
