package tlb

import (
	"testing"

	"github.com/sarchlab/akita/v5/mem"
	"github.com/sarchlab/akita/v5/mem/memcontrolprotocol"
	"github.com/sarchlab/akita/v5/mem/vm"
	"github.com/sarchlab/akita/v5/mem/vm/vmprotocol"
	"github.com/sarchlab/akita/v5/messaging"
	"github.com/sarchlab/akita/v5/modeling"
	"github.com/sarchlab/akita/v5/timing"
)

// TestProbeDrainAckWithRequestInLookupPipeline drives the real TLB:
//
//  1. a translation request is delivered on Top and admitted into the lookup
//     pipeline (retrieved from the Top port, so the TLB now owns it);
//  2. a Drain is delivered on Control while the request is still travelling
//     through the lookup pipeline (no MSHR entry exists yet);
//  3. the TLB is ticked until the Drain ack comes out.
//
// C18 says a Drain acknowledgment leaves the agent quiescent and paused: every
// request the agent accepted before the Drain must have been answered by the
// time the ack is sent. The probe asserts exactly that.
func TestProbeDrainAckWithRequestInLookupPipeline(t *testing.T) {
	engine := timing.NewSerialEngine()
	reg := modeling.NewStandaloneRegistrar(engine)
	comp := MakeBuilder().
		WithRegistrar(reg).
		WithSpec(DefaultSpec()).
		WithResources(Resources{
			TranslationProviderMapper: &mem.SinglePortMapper{
				Port: messaging.RemotePort("MMU"),
			},
		}).
		Build("TLB")
	assignDefaultPorts(reg, comp)

	top := comp.GetPortByName("Top")
	bottom := comp.GetPortByName("Bottom")
	ctrl := comp.GetPortByName("Control")
	for _, p := range []messaging.Port{top, bottom, ctrl} {
		(&ccNoopConn{}).PlugIn(p)
	}

	// Warm the TLB with the page so the request below is a plain hit: it
	// needs nothing from the bottom, only to finish the lookup pipeline.
	page := vm.Page{PID: 1, VAddr: 0x1000, PAddr: 0x9000, PageSize: 4096, Valid: true}
	setUpdate(&comp.State.Sets[0], 0, page)
	setVisit(&comp.State.Sets[0], 0)

	req := vmprotocol.TranslationReq{PID: 1, VAddr: 0x1000, DeviceID: 1}
	req.ID = timing.GetIDGenerator().Generate()
	req.Src = messaging.RemotePort("Agent")
	req.Dst = top.AsRemote()
	req.TrafficClass = "vmprotocol.TranslationReq"
	top.Deliver(req)

	// One tick: the request is retrieved from Top and enters the pipeline.
	comp.Tick()
	if top.PeekIncoming() != nil {
		t.Fatalf("setup: request was not admitted into the pipeline")
	}
	if top.RetrieveOutgoing() != nil {
		t.Fatalf("setup: request was answered already; nothing in flight")
	}

	drain := memcontrolprotocol.Req{Command: memcontrolprotocol.CmdDrain}
	drain.ID = timing.GetIDGenerator().Generate()
	drain.Src = messaging.RemotePort("Ctrl")
	drain.Dst = ctrl.AsRemote()
	drain.TrafficClass = "memcontrolprotocol.Req"
	ctrl.Deliver(drain)

	answered := false
	acked := false
	for i := 0; i < 64 && !acked; i++ {
		comp.Tick()

		for {
			out := top.RetrieveOutgoing()
			if out == nil {
				break
			}
			if rsp, ok := out.(vmprotocol.TranslationRsp); ok && rsp.RspTo == req.ID {
				answered = true
			}
		}

		if out := ctrl.RetrieveOutgoing(); out != nil {
			rsp := out.(memcontrolprotocol.Rsp)
			if rsp.Command != memcontrolprotocol.CmdDrain || rsp.RspTo != drain.ID {
				t.Fatalf("unexpected control response %+v", rsp)
			}
			acked = true
		}
	}

	if !acked {
		t.Fatalf("Drain was never acknowledged")
	}

	inPipe := len(comp.State.Pipeline.Stages()) + comp.State.BufferItems.Size()
	if !answered || inPipe != 0 {
		t.Errorf("Drain acknowledged while the TLB is not quiescent: "+
			"accepted request answered=%v, requests still in the lookup "+
			"pipeline/buffer=%d, state=%q",
			answered, inPipe, comp.State.TLBState)
	}

	// The accepted request stays unanswered for as long as the TLB is
	// "drained": nothing comes out however long we wait.
	for range 64 {
		comp.Tick()
		if out := top.RetrieveOutgoing(); out != nil {
			t.Fatalf("data response %T emitted after the Drain ack while paused", out)
		}
	}

	// After Enable the pre-drain request is finally answered, which shows it
	// was genuinely in flight across the Drain acknowledgment.
	enable := memcontrolprotocol.Req{Command: memcontrolprotocol.CmdEnable}
	enable.ID = timing.GetIDGenerator().Generate()
	enable.Src = messaging.RemotePort("Ctrl")
	enable.Dst = ctrl.AsRemote()
	ctrl.Deliver(enable)
	lateAnswer := false
	for range 64 {
		comp.Tick()
		ctrl.RetrieveOutgoing()
		if out := top.RetrieveOutgoing(); out != nil {
			if rsp, ok := out.(vmprotocol.TranslationRsp); ok && rsp.RspTo == req.ID {
				lateAnswer = true
			}
		}
	}
	if !answered && lateAnswer {
		t.Errorf("the request accepted before the Drain was only answered " +
			"after the later Enable: it was in flight when the Drain was acked")
	}
}
