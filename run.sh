#!/bin/bash
# usage: run.sh <property-id> <quick|thorough>
# Analyses /repo's current working tree; (re)builds the checker when missing or stale.
cd "$(dirname "$0")"
export GOFLAGS=-mod=mod GOPROXY=off GOSUMDB=off GOTOOLCHAIN=local GOWORK=off
if [ ! -x bin/akitacheck ] || [ -n "$(find checker -newer bin/akitacheck -name '*.go' 2>/dev/null | head -1)" ]; then
  ./setup.sh >/dev/null 2>&1 || { echo "checker build failed"; ./setup.sh; exit 2; }
fi
exec bin/akitacheck -p "$1" -tier "${2:-quick}" -root "${AKITA_ROOT:-/repo}"
